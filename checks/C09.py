"""C09 - typed getters interpret stored text faithfully or refuse - never a wrong value."""
import struct
from fractions import Fraction
from vlib.scn import Scenario, h
from checks import numrun

from gen import extract_facts
generate_facts = extract_facts.generate

ID = "C09"
LEAN_MODULES = ["Econf.Props.C09", "Econf.Props.Struct", "Econf.Props.Tie", "Econf.Props.Leaf"]
THEOREMS = ["Econf.strtoCore_render", "Econf.C09_int32", "Econf.C09_int64", "Econf.C09_uint32", "Econf.C09_uint64", "Econf.C09_bool", "Econf.C09_novalue", "Econf.Struct.C08_formats", "Econf.Struct.tie_bool_words",
            "Leaf.C_toLowerCase", "Leaf.lw_eq"]
# string helpers translated from the C source on every run (gen/c2lean.py); theorems in lean/Econf/Props/Leaf.lean
LEAF_FNS = ["toLowerCase"]
RULE = ("integer literals (sign x {decimal, octal, hexadecimal}) at every type limit +-2, with 33..65-bit magnitudes and random "
        "1..25-digit literals, read with all four integer getters and compared with the mathematical value; decimal floating "
        "literals compared bit-exactly with correct rounding computed in exact rational arithmetic; booleans: all strings up to the "
        "tier's length over a 31-symbol alphabet containing every letter of the six words, their djb2 neighbours and separators "
        "(harness/num.c boolx), random longer strings; files with keys without value in every position (last line with and without line break, behind longer lines that end in digits, a comment glued to them) x delimiter sets; distinct by literal")
EXHAUSTIVE = {"quick": True, "thorough": True}
LIMITS = {"int": (-2**31, 2**31 - 1), "uint": (0, 2**32 - 1), "int64": (-2**63, 2**63 - 1), "uint64": (0, 2**64 - 1)}


def spell(v, base, rng):
    sign = "-" if v < 0 else rng.choice(["", "", "+"])
    m = abs(v)
    if base == 10:
        d = str(m)
    elif base == 8:
        d = "0" + (oct(m)[2:] if m else "")
    else:
        d = rng.choice(["0x", "0X"]) + (("%x" if rng.random() < 0.5 else "%X") % m)
    return sign + d


def literals(rng, n):
    vals = set()
    for lo, hi in LIMITS.values():
        for c in (lo, hi):
            for dlt in (-2, -1, 0, 1, 2):
                vals.add(c + dlt)
    for b in range(31, 66):
        vals.add(2**b + rng.randint(-3, 3))
        vals.add(-(2**b) + rng.randint(-3, 3))
    # modular aliases: values that a wrapping or truncating conversion would map into the range of a type
    for M in (2**32, 2**64):
        base = [0, 1, 2, 3, M // 2 - 1, M // 2, M - 1, M - 2] + [rng.randrange(M) for _ in range(6)] + [rng.randrange(2**32) for _ in range(6)]
        for r in base:
            for k in (1, 2, -1, -2):
                vals.add(r + k * M)
                vals.add(-(r + k * M))
    out = []
    for v in sorted(vals):
        for base in (10, 8, 16):
            out.append((spell(v, base, rng), v))
    for _ in range(n):
        nd = rng.randint(1, 25)
        base = rng.choice([10, 10, 8, 16])
        digs = {10: "0123456789", 8: "01234567", 16: "0123456789abcdef"}[base]
        d = "".join(rng.choice(digs) for _ in range(nd))
        if base == 10:
            d = d.lstrip("0") or "7"
        v = int(d, base)
        if rng.random() < 0.35:
            v = -v
        out.append((spell(v, base, rng), v))
    out += [("-0", 0), ("+0", 0), ("0", 0), ("00", 0), ("-00", 0), ("0x0", 0), ("-0x0", 0)]
    return out


def round_binary(fr, p, emin, emax):
    """nearest binary float (ties to even) of a non-negative Fraction; returns (mantissa, exponent) or 'inf'"""
    if fr == 0:
        return (0, emin)
    e = fr.numerator.bit_length() - fr.denominator.bit_length()
    if Fraction(2) ** e > fr:
        e -= 1
    e = max(e, emin)                  # subnormals share the minimum exponent
    scaled = fr / Fraction(2) ** (e - (p - 1))
    m = scaled.numerator // scaled.denominator
    rem = scaled - m
    if rem > Fraction(1, 2) or (rem == Fraction(1, 2) and m % 2 == 1):
        m += 1
    if m >= 2 ** p:
        m //= 2
        e += 1
    if e > emax:
        return "inf"
    return (m, e)


def float_bits(text, double):
    p, emin, emax, ebits, bias = (53, -1022, 1023, 11, 1023) if double else (24, -126, 127, 8, 127)
    neg = text.startswith("-")
    t = text.lstrip("+-")
    mant, _, ex = t.lower().partition("e")
    ip, _, fp = mant.partition(".")
    fr = Fraction(int((ip + fp) or "0")) / Fraction(10) ** len(fp) * Fraction(10) ** int(ex or "0")
    r = round_binary(fr, p, emin, emax)
    if r == "inf":
        bits = ((2 ** ebits - 1) << (p - 1))
    else:
        m, e = r
        if m < 2 ** (p - 1):
            bits = m                                  # zero or subnormal
        else:
            bits = ((e + bias) << (p - 1)) | (m - 2 ** (p - 1))
    if neg:
        bits |= 1 << (ebits + p - 1)
    return bits


def float_literals(rng, n):
    out = ["0", "-0", "1", "0.1", "1e-45", "1.4e-45", "7e-46", "3.4028235e38", "3.4028236e38", "3.5e38", "1e39", "1e-320", "4.9e-324",
           "2.4e-324", "2.5e-324", "1.7976931348623157e308", "1.7976931348623159e308", "1e309", "16777217", "16777216.5",
           "9007199254740993", "0.30000000000000004", "5e-1", "123456789012345678901234567890", "1.00000005960464477539062500001",
           "1.000000059604644775390625", "8.5", "+2.5e+3", ".5", "-.25", "+.5e1", ".000123", "5.", "-7.e2"]
    for _ in range(n):
        nd = rng.randint(1, 20)
        d = "".join(rng.choice("0123456789") for _ in range(nd))
        if rng.random() < 0.6:
            k = rng.randint(0, nd)
            d = d[:k] + "." + d[k:]
            # (half of the literals that begin or end with the point are left like that: ".5", "5." are decimal literals too)
            if d.startswith(".") and (len(d) == 1 or rng.random() < 0.5):
                d = "0" + d
            if d.endswith(".") and rng.random() < 0.5:
                d = d + "0"
        if rng.random() < 0.6:
            d += "e%d" % rng.randint(-50, 50)
        if rng.random() < 0.3:
            d = "-" + d
        out.append(d)
    return out


def scenarios(tier, rng):
    out = []
    lits = literals(rng, 600 if tier == "quick" else 20000)
    for i in range(0, len(lits), 20):
        part = lits[i:i + 20]
        s = Scenario("i%d" % i, {"lits": part})
        s.add("NEW", 0, "ini")
        for j, (txt, v) in enumerate(part):
            k = b"k%d" % j
            s.add("SET", 0, "str", "-", h(k), h(txt.encode()))
            for ty in ("int", "uint", "int64", "uint64"):
                s.add("GET", 0, ty, "-", h(k))
            # the getters with a default, on a key that exists: the same answer (the default plays no part)
            for ty in ("int", "uint", "int64", "uint64"):
                s.add("GETD", 0, ty, "-", h(k), "7")
        out.append(s)
    fl = float_literals(rng, 300 if tier == "quick" else 20000)
    for i in range(0, len(fl), 20):
        part = fl[i:i + 20]
        s = Scenario("f%d" % i, {"floats": part, "impl_only": True})
        s.add("NEW", 0, "ini")
        for j, txt in enumerate(part):
            k = b"k%d" % j
            s.add("SET", 0, "str", "-", h(k), h(txt.encode()))
            s.add("GET", 0, "float", "-", h(k))
            s.add("GET", 0, "double", "-", h(k))
        out.append(s)
    # booleans through the scenario protocol (model comparison) and bare keys
    words = [b"yes", b"YES", b"yEs", b"no", b"No", b"true", b"TRUE", b"tRUe", b"false", b"False", b"1", b"0", b"", b"p-", b"g@lse", b"yes ",
             b" yes", b"on", b"off", b"2", b"01", b"truee", b"_none_", b"y", b"n", b"t", b"f", b"nope", b"yes\n"]
    # every recognised spelling with one more character at either end is not a boolean
    words += [w + c for w in (b"yes", b"no", b"true", b"false", b"1", b"0", b"FALSE", b"True") for c in (b"e", b"s", b"0", b"x", b".")]
    words += [c + w for w in (b"yes", b"no", b"true", b"false", b"1", b"0") for c in (b"x", b"0", b"-")]
    for i in range(40 if tier == "quick" else 2000):
        s = Scenario("b%d" % i, {"bools": True})
        s.add("NEW", 0, "ini")
        for j in range(20):
            w = rng.choice(words) if rng.random() < 0.6 else bytes(rng.choice(b"yestrunofalYESNO01 -@p") for _ in range(rng.randint(0, 7)))
            k = b"k%d" % j
            s.add("SET", 0, "str", "-", h(k), h(w))
            s.add("GET", 0, "bool", "-", h(k))
        s.meta["words"] = [l.split()[5] for l in s.lines if l.startswith("SET")]
        out.append(s)
    s = Scenario("bare", {"bare": True})
    s.file(b"/f.conf", b"bare\nk=\n[S]\nz\nq =\n")
    s.add("RF", 0, h(b"/f.conf"), h(b"="), h(b"#"))
    s.add("ALLGET", 0)
    for ty in ("int", "uint", "int64", "uint64", "bool", "float", "double"):
        s.add("GET", 0, ty, "-", h(b"bare"))
    s.meta["impl_only"] = True
    out.append(s)
    # keys without value in every position: on the last line with and without a line break, behind longer lines that end in
    # digits, with a comment glued to them; read with several delimiter sets; no numeric getter may answer with a number
    BARE = [(b"RETRY 4242\n\nQUIET", b" \t", [b"QUIET"]), (b"ab = 77\n\nfl", b"=", [b"fl"]), (b"RETRY 4242\n\nQUIET#7\n", b" \t", [b"QUIET"]),
            (b"x=12345678\n\nbare\n", b"=", [b"bare"]), (b"longer line = 99 # c\n\nz", b" =", [b"z"]), (b"n=1\n\nb1\n\nb2", b"=", [b"b1", b"b2"]),
            (b"[S]\nport 8080\n\nverbose;1", b" ", [b"verbose"]), (b"a:=5\n\nlast", b":=", [b"last"])]
    for i, (content, delim, keys) in enumerate(BARE):
        for cm in ((b";", b"#;") if b";" in content else (b"#", b"#;")):
            s = Scenario("bare%d_%d" % (i, len(cm)), {"bare": True, "barekeys": keys})
            s.file(b"/f.conf", content)
            s.add("RF", 0, h(b"/f.conf"), h(delim), h(cm))
            s.add("RAW", 0)
            s.add("ALLGET", 0)
            s.meta["impl_only"] = True
            out.append(s)
    return out


def oracle(s, lines):
    m = s.meta
    if "lits" in m:
        it = iter(lines[1:])
        for txt, v in m["lits"]:
            if next(it) != "set E0":
                return "set failed"
            for ty in ("int", "uint", "int64", "uint64"):
                lo, hi = LIMITS[ty]
                want = "get E0 %d" % v if lo <= v <= hi else "get E24"
                got = next(it)
                if got != want:
                    return "literal %r read as %s: %r, expected %r" % (txt, ty, got, want)
            for ty in ("int", "uint", "int64", "uint64"):
                lo, hi = LIMITS[ty]
                want = "get E0 %d" % v if lo <= v <= hi else "get E24"
                got = next(it)
                if got != want:
                    return "literal %r read as %s by the getter with a default: %r, expected %r" % (txt, ty, got, want)
        return None
    if "floats" in m:
        it = iter(lines[1:])
        for txt in m["floats"]:
            next(it)
            gf, gd = next(it), next(it)
            wf = "get E0 x%08x" % float_bits(txt, False)
            wd = "get E0 x%016x" % float_bits(txt, True)
            if gf != wf:
                return "float literal %r: %r, correctly rounded %r" % (txt, gf, wf)
            if gd != wd:
                return "double literal %r: %r, correctly rounded %r" % (txt, gd, wd)
        return None
    if "bools" in m:
        it = iter(lines[1:])
        for tok in m["words"]:
            w = bytes.fromhex(tok[1:])
            next(it)
            got = next(it)
            l = w.lower()
            if l in (b"1", b"yes", b"true"):
                want = "get E0 1"
            elif l in (b"0", b"no", b"false", b""):
                want = "get E0 0"
            else:
                want = None
            if want is not None and got != want:
                return "boolean text %r: %r, expected %r" % (w, got, want)
            if want is None and got.startswith("get E0"):
                return "text %r accepted as boolean: %r" % (w, got)
        return None
    if m.get("barekeys"):
        if not lines or lines[0] != "rf E0 obj":
            return "file with keys without value not read: %r" % lines[:1]
        for k in m["barekeys"]:
            for l in lines:
                if l.startswith("ag " + h(k) + " ") and any(t in l for t in (" i E0", " l E0", " u E0", " w E0", " f E0", " d E0")):
                    return "the key %r has no value but a numeric getter answers with a number: %r" % (k, l)
            if not any(l.startswith("ag " + h(k) + " ") for l in lines):
                return "the key %r (without value) is not listed: %r" % (k, [l for l in lines if l.startswith("ag ")])
        return None
    if m.get("bare"):
        for l in lines:
            if l.startswith("get E0") or (l.startswith("ag ") and (" i E0" in l or " u E0" in l or " l E0" in l or " w E0" in l) and not l.startswith("ag h71")):
                return "a key without value yields a number: %r" % l
        return None
    return None


def nontrivial(s, lines):
    m = s.meta
    if "lits" in m or "floats" in m or "bools" in m or "bare" in m:
        return tuple(s.lines)
    return None


def histogram(s, lines):
    m = s.meta
    if "lits" in m:
        ks = []
        for txt, v in m["lits"]:
            t = txt.lstrip("+-").lower()
            ks.append("int_hex" if t.startswith("0x") else "int_octal" if t.startswith("0") and len(t) > 1 else "int_decimal")
            ks.append("int_bits_%s" % ("<=31" if abs(v) < 2**31 else "32" if abs(v) < 2**32 else "33-63" if abs(v) < 2**63 else "64+"))
        return ks
    if "floats" in m:
        return ["float_literal"] * len(m["floats"])
    if "bools" in m:
        return ["bool_text"] * 20
    return ["bare_keys" if m.get("bare") else "corpus"]


def direct_checks(res, harness, tier, rng):
    if tier == "quick":
        jobs = [["boolx", "3"]]
    else:
        alpha = "yestrunofalYESTRUNOFAL01 -@p`2_"
        jobs = [["boolx", "5", c] for c in alpha] + [["boolx", "0"]]
    ev, fails, distinct = numrun.run_jobs(harness, jobs)
    res.evaluations += ev
    res.direct_distinct += distinct
    res.hist["direct_bool_strings"] = ev
    res.notes.append("boolx: %d strings through econf_getBoolValue / econf_setBoolValue" % ev)
    numrun.report(res, fails, "boolean recognition")
