"""Runs harness/num (direct oracles on the real library) in parallel and turns failures into violations."""
import concurrent.futures as cf
import os
import shutil
import subprocess
import tempfile

from checks import common


def run_jobs(harness, jobs, workers=16):
    """jobs: list of argv lists; returns (evaluations, [fail lines])"""
    def one(argv):
        p = subprocess.run([harness["num"]] + argv, stdout=subprocess.PIPE, stderr=subprocess.STDOUT, text=True)
        ev, fails = 0, []
        for l in p.stdout.split("\n"):
            if l.startswith("FAIL "):
                fails.append(l[5:] + "   [num " + " ".join(argv) + "]")
            elif l.startswith("done "):
                ev = int(l.split()[1])
        if p.returncode != 0 or "done" not in p.stdout:
            fails.append("num %s ended abnormally (exit %d): %s" % (" ".join(argv), p.returncode, p.stdout[-300:]))
        return ev, fails
    tot, allf, distinct = 0, [], 0
    with cf.ThreadPoolExecutor(max_workers=workers) as ex:
        for argv, (ev, fails) in zip(jobs, ex.map(one, jobs)):
            tot += ev
            allf += fails
            # distinct cases: exact for enumerations (disjoint ranges / prefixes), one per job for pseudo-random runs
            distinct += ev if argv[0] in ("rt32", "boolx") else 1
    return tot, allf, distinct


def report(res, fails, what):
    for i, f in enumerate(fails[:5]):
        p = common.write_replay(res, "num%d" % (len(res.violations) + 1), None,
                                "property %s violated (%s): %s\nreplay: build/h-*/num with the arguments in brackets" % (res.pid, what, f))
        res.violations.append((p, f, False))


def scratch():
    base = "/dev/shm" if os.access("/dev/shm", os.W_OK) else tempfile.gettempdir()
    return tempfile.mkdtemp(prefix="econf-num-", dir=base)
