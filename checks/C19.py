"""C19 - econftool shows what an application would get."""
import os
import shutil
import subprocess
import tempfile
from vlib import build, scn, gen_tree
from vlib.scn import Scenario, h, unh
from checks.outparse import parse_views, parse_raws

ID = "C19"
LEAN_MODULES = ["Econf.Props.C19", "Econf.Props.Leaf"]
THEOREMS = ["Econf.C19_block_shown", "Econf.C19_key_in_block", "Econf.C19_key_shown", "Econf.C19_key_line", "Econf.C19_groupless_only", "Econf.toolShow_lines", "Econf.decode_render", "Econf.C19_decode",
            "Leaf.C_replace_str", "Leaf.replaceSpec_length"]
# econftool's in-place replacement of the escapes in --delimiters: translated from util/econftool.c on every run (gen/c2lean.py)
LEAF_FNS = ["replace_str"]
SHRINK = False
RULE = ("two-layer trees under $ECONFTOOL_ROOT (vendor /usr/etc, local /etc) and single absolute files x --delimiters/--comment choices "
        "x files with only group-less keys, only sections, both, key-less sections, multi-line values, UTF-8 and other non-ASCII bytes, control characters and per cent signs in names, keys and values, files that are symbolic links to regular files elsewhere, malformed lines: the freshly built "
        "econftool (ASan) is run with show, syntax and cat; its output is compared with the library's result for the same tree "
        "(harness), with the Lean model of the printer, and decoded back into sections/keys/values; distinct by (tree, arguments)")
HEADER_LINES = 4

CONTENTS = [b"retry=5\nhost=example\ntimeout=30\nlog_target=syslog\nfvn=r\n", b"a=1\nb=2\n", b"[S]\nx=1\n[T]\ny=2\n", b"g=0\n[S]\nx=1\n", b"[Empty]\n[S]\nx=1\n", b"k=first\n  second\n  third\nz=9\n",
            b"bare\nq=\n[S]\nbare2\n", b"# c\nk=v # t\n[S]\n# d\nk=w\n", b"", b"dup=1\ndup=2\n", b"only=1\n",
            # section names that contain brackets or blanks themselves
            b"[[unit]]\nu=1\nv=2\n[tail]\nlast=yes\n", b"a=0\n[a b]\nx=1\n[[x]\ny=2\n[z]]\nw=3\n",
            # a section that is opened again further down, with another one in between
            b"[net]\nhost=example\n[log]\nlevel=info\n[net]\nport=22\n", b"[S]\nx=1\n[T]\ny=2\n[S]\nz=3\n[T]\nw=4\n",
            # bytes beyond ASCII (UTF-8 text, bytes that are no text at all) and control characters in names, keys and values
            b"motd=Gr\xc3\xbc\xc3\x9fe\n[se\xc3\xb1al]\ngr\xc3\xb6\xc3\x9fe=12\ntitle=Caf\xc3\xa9 \xe2\x80\x93 men\xc3\xba\n",
            b"raw=\xff\xfe\x80\n[\xe6\x97\xa5\xe6\x9c\xac]\nk=\xe8\xaa\x9e\n  \xc3\x96l\n", b"esc=\x1b[1mbold\x1b[0m\nbell=a\x07b\x01\n",
            # per cent signs (what a printf format would take for conversions) in keys, values and section names
            b"%users=staff\ncpu%d=75\nmem%u=80\n100%=full\n[load%5.1f]\nrate=5%\n%s_fmt=%s %n %%\n",
            # tab-separated keys and values, comments introduced by a backslash
            b"\\ note\nkey\tvalue\nother\tv2 \\ trailing\n[S]\nk\tv\n",
            # the other comment character of a two-character --comment set
            b"; note\nk=v ; t\n[S]\n; d\nk2=w\n# e\nk3=x # f\n"]
BAD = [b"[broken\nx=1\n", b"a=1\n[S] tail\n", b"a=1\nb=2\n[]\n", b"k v\n"]


def run_tool(harness, root, args, env_extra=None):
    env = dict(os.environ, ECONFTOOL_ROOT=root, ASAN_OPTIONS="detect_leaks=0:symbolize=0", HOME="/nonexistent")
    p = subprocess.run([harness["econftool"]] + args, env=env, stdout=subprocess.PIPE, stderr=subprocess.PIPE)
    return p.returncode, p.stdout, p.stderr


def make(rng, sid, harness, tmpbase):
    single = rng.random() < 0.25
    # (delimiter bytes, comment bytes, spelling of --delimiters): escapes \t \n ... are translated by the tool
    delim, comment, dspell = rng.choice([(b"=", b"#", "="), (b"=", b"#", "="), (b":=", b"#;", ":="), (b" =", b"#", " ="),
                                         (b"=\t", b"#", "=\\t"), (b"\t=", b"#", "\\t="), (b"= \t", b"#", "= \\t"), (b":\x0c", b"#", ":\\f"),
                                         (b"=\t\x0b", b";", "=\\t\\v"),
                                         # both options with a backslash: a tab written as an escape, and the backslash as comment character
                                         (b"\t", b"\\", "\\t"), (b"=\t", b"\\#", "=\\t")])
    bad = rng.random() < 0.2
    files = {}
    if single:
        # a single absolute file; a third of them behind a long path (NAME_MAX < length < PATH_MAX) next to a file whose name
        # is a prefix of theirs
        if rng.random() < 0.33:
            d = b"/srv/" + b"/".join([b"d" * 60] * rng.randint(4, 6))
            files[d + b"/app.conf.local"] = rng.choice(BAD if bad else CONTENTS)
            files[d + b"/app.conf"] = b"other=1\n"
        else:
            files[b"/srv/one.conf"] = rng.choice(BAD if bad else CONTENTS)
    else:
        # the name given to the tool: base name and suffix are split at the last dot
        base = rng.choice([b"app", b"app", b"org.example.app", b"a.b"])
        if rng.random() < 0.6:
            files[b"/usr/etc/" + base + b".conf"] = rng.choice(CONTENTS)
        if rng.random() < 0.5:
            files[b"/etc/" + base + b".conf"] = rng.choice(CONTENTS)
        for d in (b"/usr/etc/" + base + b".conf.d/", b"/etc/" + base + b".conf.d/"):
            for nm in rng.sample([b"10-a.conf", b"b.conf", b"9-z.conf"], rng.randint(0, 2)):
                files[d + nm] = rng.choice(CONTENTS)
        if bad and files:
            k = rng.choice(sorted(files))
            files[k] = rng.choice(BAD)
    # one of the files is sometimes a symbolic link (with a relative target) to a regular file kept somewhere else: the library
    # follows it, so the tool has to show what is in it
    links = {}
    if files and rng.random() < 0.3:
        k = rng.choice(sorted(files))
        if len(k) < 200:
            store = b"/srv/available/" + k.replace(b"/", b"_")
            links[k] = b"../" * (k.count(b"/") - 1) + store[1:]
    root = tempfile.mkdtemp(prefix="t", dir=tmpbase)
    for p, c in files.items():
        full = root + p.decode()
        os.makedirs(os.path.dirname(full), exist_ok=True)
        if p in links:
            tgt = os.path.normpath(os.path.join(os.path.dirname(full), links[p].decode()))
            os.makedirs(os.path.dirname(tgt), exist_ok=True)
            with open(tgt, "wb") as f:
                f.write(c)
            os.symlink(links[p].decode(), full)
            continue
        with open(full, "wb") as f:
            f.write(c)
    targ = ["--delimiters=" + dspell, "--comment=" + comment.decode()]
    s = Scenario(sid, {"tool": True, "single": single, "files": files, "delim": delim, "comment": comment, "impl_only": True, "links": links})
    for p, c in sorted(files.items()):
        q = (root.encode() + p) if single else p
        if p in links:
            s.file(os.path.normpath(os.path.join(os.path.dirname(q), links[p])), c)
            s.link(q, links[p])
        else:
            s.file(q, c)
    if single:
        one = sorted(files, key=len)[-1]         # the file itself (its neighbour with the shorter name is not asked for)
        name = root + one.decode()
        s.add("RF", 0, h(name.encode()), h(delim), h(comment))
    else:
        name = base.decode() + ".conf"
        s.add("RD", 0, h(b"/usr/etc"), h(b"/etc"), h(base), h(b".conf"), h(delim), h(comment))
    s.add("DUMPX", 0)
    s.add("TOOLSHOW", 0)
    s.add("ERRLOC")
    if not single:
        s.add("RH", 10, h(b"/usr/etc"), h(b"/etc"), h(base), h(b".conf"), h(delim), h(comment))
        for i in range(10, 18):
            s.add("PATH", i) if False else None
            s.add("TOOLSHOW", i)
    m = s.meta
    m["show"] = run_tool(harness, root, ["show"] + targ + [name])
    m["syntax"] = run_tool(harness, root, ["syntax"] + targ + [name])
    if not single:
        m["cat"] = run_tool(harness, root, ["cat"] + targ + [name])
    m["root"] = root.encode()
    shutil.rmtree(root, ignore_errors=True)
    return s


def scenarios(tier, rng):
    harness = build.build_harness()
    n = 300 if tier == "quick" else 6000
    tmpbase = tempfile.mkdtemp(prefix="econf-c19-", dir="/dev/shm" if os.access("/dev/shm", os.W_OK) else None)
    try:
        out = [make(rng, "u%d" % i, harness, tmpbase) for i in range(n)]
    finally:
        shutil.rmtree(tmpbase, ignore_errors=True)
    model = scn.run_model(out)
    for s in out:
        s.meta["model"] = model.get(s.id, ([], "MISSING"))[0]
    return out


def decode_show(text):
    """stdout of pr_key_file -> list of (group or None, key, [value lines]) and list of groups"""
    groups, entries = [], []
    cur = None
    for block in text.split(b"\n\n"):
        lines = block.split(b"\n")
        lines = [l for l in lines if l != b""] if block.strip(b"\n") == b"" else lines
        for ln in lines:
            if ln.startswith(b"     ") and entries:
                entries[-1][2].append(ln[5:])
            elif b" = " in ln or ln.endswith(b" ="):
                k, _, v = ln.partition(b" = ")
                entries.append((cur, k, [v] if (b" = " in ln and ln[len(k) + 3:] != b"") or v else []))
            elif ln:
                cur = ln
                groups.append(ln)
    return groups, entries


def oracle(s, lines):
    m = s.meta
    if not m.get("tool"):
        return None
    ml = [l for l in m["model"] if not l.startswith("toolshow ")]
    if lines != ml:
        fd = scn.first_diff(lines, ml)
        return "library harness and model disagree at line %s" % (fd,)
    toolshows = [l for l in m["model"] if l.startswith("toolshow ")]
    res = lines[0]
    ok = " E0 " in res
    rc, out, err = m["show"]
    rc2, out2, err2 = m["syntax"]
    if b"AddressSanitizer" in err + err2 or b"runtime error" in err + err2:
        return "sanitizer report from econftool: %r" % (err + err2)[-300:]
    # syntax: exit status and error location
    if ok != (rc2 == 0):
        return "library result %r but 'econftool syntax' exits with %d" % (res, rc2)
    if ok != (rc == 0):
        return "library result %r but 'econftool show' exits with %d" % (res, rc)
    if not ok:
        loc = next(l for l in lines if l.startswith("errloc ")).split()
        f, ln = unh(loc[1]), int(loc[2])
        code = int(res.split()[1][1:])
        if code in (9, 10, 11, 12):
            f_tool = f if m["single"] else m["root"] + f
            want = f_tool + b" (line %d): " % ln
            if not err2.startswith(want):
                return "'econftool syntax' reports %r, expected it to start with %r" % (err2[:120], want)
        return None
    # show: stdout after the header equals the model's printer output and decodes to the library's view
    body = b"\n".join(out.split(b"\n")[HEADER_LINES:])
    want = unh(toolshows[0].split()[1]) if toolshows and toolshows[0] != "toolshow null" else b""
    if body != want:
        return "'econftool show' prints %r, the printer model gives %r" % (body, want)
    v = parse_views(lines)[0]
    groups, entries = decode_show(body)
    if groups != v.groups:
        return "'econftool show' lists the sections %r, the library %r" % (groups, v.groups)
    lib = []
    for g in [None] + v.groups:
        err_, keys = v.keys.get(g, (5, []))
        for i, k in enumerate(keys):
            x = v.ext.get((g, i))
            lib.append((g, k, x["vals"] if x and x["err"] == 0 else []))
    norm = lambda vals: [] if vals == [b""] else vals      # an empty text and no value are printed alike
    if [(g, k, norm(vals)) for g, k, vals in entries] != [(g, k, norm(vals)) for g, k, vals in lib]:
        return "'econftool show' prints %r, the library returns %r" % (entries, lib)
    # cat: the consulted files in processing order, each printed like show does
    if "cat" in m:
        rcc, outc, errc = m["cat"]
        bodyc = b"\n".join(outc.split(b"\n")[HEADER_LINES:])
        wantc = b"".join(unh(t.split()[1]) for t in toolshows[1:] if t != "toolshow null")
        if rcc != 0 or bodyc != wantc:
            return "'econftool cat' prints %r (exit %d), the history gives %r" % (bodyc, rcc, wantc)
        paths = [l[6:] for l in errc.split(b"\n") if l.startswith(b"Path: ")]
        hist = [r.path for r in parse_raws(lines)] if False else None
    return None


def nontrivial(s, lines):
    m = s.meta
    if not m.get("tool"):
        return None
    return (tuple(sorted(m["files"].items())), m["delim"], m["comment"], m["single"], tuple(sorted(m.get("links", {}))))


def histogram(s, lines):
    m = s.meta
    if not m.get("tool"):
        return ["corpus"]
    ks = ["single_file" if m["single"] else "tree_%d_files" % len(m["files"]), "delim_%s" % m["delim"].decode()]
    if m.get("links"):
        ks.append("with_symlinked_file")
    ks.append("library_" + lines[0].split()[1] if lines else "noresult")
    allc = b"".join(m["files"].values())
    first = [c.split(b"\n")[0] for c in m["files"].values() if c]
    if any(not f.startswith(b"[") for f in first):
        ks.append("has_groupless_keys")
    if b"[" in allc:
        ks.append("has_sections")
    return ks
