"""Framework shared by all property checks: build, proof obligations, correspondence run,
property oracle on the implementation's own output, violation search / shrinking, evidence."""
import glob
import importlib
import json
import os
import random
import re
import subprocess
import sys
import time

VERIF = os.path.dirname(os.path.dirname(os.path.abspath(__file__)))
sys.path.insert(0, VERIF)
from vlib import build, scn  # noqa: E402

EVID = os.path.join(VERIF, "evidence")
REPLAY = os.path.join(EVID, "replay")
ALLOWED_AXIOMS = {"propext", "Classical.choice", "Quot.sound"}
FORBIDDEN = re.compile(r"\b(sorry|admit|native_decide|bv_decide|implemented_by|unsafe)\b|^axiom\s|maxHeartbeats\s+0", re.M)

TRUSTED_BASE = [
    "Lean 4.33.0 kernel (lake build; thorough tier re-checks the property module with leanchecker)",
    "axioms allowed in property theorems: propext, Classical.choice, Quot.sound (audited with #print axioms on every run); no native_decide, no bv_decide, no sorry",
    "hand-written Lean model of lib/*.c, tied to /repo by the correspondence run of this check (C harness built from the working tree with ASan+UBSan vs the compiled Lean driver, same scenarios)",
    "harness/drv.c, vlib/*.py generators and oracles, gen/extract_facts.py (clang AST dump) for the extracted facts",
    "for the translated string helpers (checks that list LEAF_FNS): gen/c2lean.py (clang AST -> MiniC terms) and the MiniC semantics lean/Econf/MiniC.lean, both validated on every run by running the translated terms and the real C functions (harness/leaf.c, ASan) on the same inputs",
    "gcc 12 AddressSanitizer/UBSan as oracle for memory errors; glibc getline/strtol/printf/scandir/lstat as assumed in DESIGN.md section 3",
]


def strip_comments(src):
    src = re.sub(r"/-.*?-/", "", src, flags=re.S)
    src = re.sub(r"--.*", "", src)
    return src


def lean_source_audit():
    """forbidden constructs outside comments in every Lean source of the project"""
    bad = []
    files = glob.glob(os.path.join(build.LEAN, "*.lean")) + glob.glob(os.path.join(build.LEAN, "Econf", "**", "*.lean"), recursive=True) + \
        glob.glob(os.path.join(build.LEAN, "Generated", "*.lean"))
    for f in files:
        src = strip_comments(open(f).read())
        for m in FORBIDDEN.finditer(src):
            bad.append("%s: %s" % (os.path.relpath(f, VERIF), m.group(0).strip()))
    return bad


def axioms_audit(pid, modules, theorems):
    """-> dict theorem -> (ok, text).  Runs `#print axioms` on every theorem."""
    os.makedirs(os.path.join(build.BUILD, "audit"), exist_ok=True)
    path = os.path.join(build.BUILD, "audit", "Audit_%s_%d.lean" % (pid, os.getpid()))
    with open(path, "w") as f:
        for m in modules:
            f.write("import %s\n" % m)
        for t in theorems:
            f.write("#print axioms %s\n" % t)
    p = subprocess.run(["lake", "env", "lean", path], cwd=build.LEAN, stdout=subprocess.PIPE, stderr=subprocess.STDOUT, text=True)
    out = p.stdout
    os.unlink(path)
    res = {}
    for t in theorems:
        m = re.search(r"'%s' depends on axioms: \[([^\]]*)\]" % re.escape(t), out)
        if m:
            ax = set(a.strip() for a in m.group(1).replace("\n", " ").split(",") if a.strip())
            res[t] = (ax <= ALLOWED_AXIOMS, "axioms: " + ", ".join(sorted(ax)))
        elif re.search(r"'%s' does not depend on any axioms" % re.escape(t), out):
            res[t] = (True, "no axioms")
        else:
            res[t] = (False, "theorem not found or not checked: " + out[-400:])
    return res


class Result:
    def __init__(self, pid, tier, seed):
        self.pid = pid
        self.tier = tier
        self.seed = seed
        self.violations = []      # (replay_path, note, no_input_found)
        self.known = []           # lines
        self.obligations = []     # (name, ok, text)
        self.evaluations = 0
        self.nontrivial = set()
        self.samples = []
        self.hist = {}
        self.disagreements = 0
        self.notes = []
        self.direct_distinct = 0   # distinct cases counted by direct oracles (harness/num.c etc.)
        self.t0 = time.time()


def write_replay(res, name, scenario, header, impl=None, model=None):
    os.makedirs(REPLAY, exist_ok=True)
    path = os.path.join(REPLAY, "%s-%s.scn" % (res.pid, name))
    with open(path, "w") as f:
        for ln in header.split("\n"):
            f.write("# " + ln + "\n")
        if scenario is not None:
            f.write(scenario.text())
        if impl is not None:
            f.write("# --- implementation output\n" + "".join("# I " + l + "\n" for l in impl))
        if model is not None:
            f.write("# --- model output\n" + "".join("# M " + l + "\n" for l in model))
    return path


def load_known(pid):
    p = os.path.join(VERIF, "known_findings.json")
    if not os.path.exists(p):
        return []
    return [k for k in json.load(open(p)) if k["property"] == pid and k["status"] == "known"]


def corpus(pid):
    """regression scenarios: corpus/<pid>/*.scn and the witnesses of fixed findings (corpus/fixed/*)"""
    out = []
    for path in sorted(glob.glob(os.path.join(VERIF, "corpus", pid, "*.scn")) + glob.glob(os.path.join(VERIF, "corpus", "all", "*.scn"))):
        out.extend(load_scn(path))
    return out


def load_scn(path):
    """scenarios of a corpus / replay file; '#= ' lines after a scenario are its expected output"""
    out = []
    cur = None
    for ln in open(path):
        ln = ln.rstrip("\n")
        if ln.startswith("#= ") or ln == "#=":
            if out:
                out[-1].meta.setdefault("expect", []).append(ln[3:])
            continue
        if ln.startswith("#"):
            continue
        if ln.startswith("BEGIN "):
            cur = scn.Scenario(os.path.basename(path) + ":" + ln[6:], {"corpus": path})
        elif ln.startswith("END"):
            if cur is not None:
                out.append(cur)
            cur = None
        elif cur is not None and ln.strip():
            cur.lines.append(ln)
    return out


def corpus_oracle(s, il):
    exp = s.meta.get("expect")
    if exp is None:
        return None
    if il != exp:
        fd = scn.first_diff(il, exp)
        return "regression witness %s: output line %d is %r, expected %r" % (s.id, fd[0], fd[1], fd[2])
    return None


def shrink(s, still_bad, budget=80):
    """delete scenario lines while `still_bad(scenario)` holds"""
    lines = list(s.lines)
    i = 0
    tries = 0
    while i < len(lines) and tries < budget:
        cand = lines[:i] + lines[i + 1:]
        t = scn.Scenario(s.id, s.meta)
        t.lines = cand
        tries += 1
        if still_bad(t):
            lines = cand
        else:
            i += 1
    t = scn.Scenario(s.id, s.meta)
    t.lines = lines
    return t


def run_pair(scs, harness, jobs=16):
    impl = scn.run_impl(scs, harness, jobs=jobs)
    model = scn.run_model(scs, jobs=jobs)
    return impl, model


def run_property(mod, tier, seed, replay=None):
    pid = mod.ID
    res = Result(pid, tier, seed)
    rng = random.Random(seed * 1000003 + sum(ord(c) for c in pid))
    os.makedirs(EVID, exist_ok=True)
    for old in glob.glob(os.path.join(REPLAY, "%s-*.scn" % pid)):
        if replay is None or os.path.abspath(old) != os.path.abspath(replay):
            os.unlink(old)

    scn.STACK_KB = getattr(mod, "STACK_KB", None)
    # 1. build the implementation side from /repo's working tree
    try:
        harness = build.build_harness()
    except build.BuildError as e:
        p = write_replay(res, "build", None, "the harness no longer builds against /repo (correspondence cannot be run):\n" + str(e))
        res.violations.append((p, "harness build failed", True))
        return finish(mod, res)

    # 2. proof obligations
    gen = getattr(mod, "generate_facts", None)
    gen_err = []

    leaf_fns = list(getattr(mod, "LEAF_FNS", []))
    leaf_err = []

    def pre():
        if gen:
            try:
                gen()
            except Exception as e:  # extraction failure = obligation not discharged
                gen_err.append(repr(e))
        if leaf_fns:
            from gen import c2lean
            try:
                c2lean.generate()
            except Exception as e:
                leaf_err.append(repr(e))
    ok, out = build.lake_build(list(getattr(mod, "LEAN_MODULES", [])) + ["econf_model"], pre=pre)
    if gen:
        res.obligations.append(("facts re-extracted from /repo (gen/extract_facts.py -> Generated/Facts.lean)", not gen_err, "; ".join(gen_err)))
    if leaf_fns:
        res.obligations.append(("string helpers re-translated from /repo (gen/c2lean.py -> Generated/LeafFns.lean): " + ", ".join(leaf_fns),
                                not leaf_err, "; ".join(leaf_err)))
        res.obligations.append(("the direct harness of the translated helpers (harness/leaf.c) builds against /repo",
                                harness.get("leaf") is not None, (harness.get("leaf_error") or "")[-1500:]))
    res.obligations.append(("lake build " + " ".join(getattr(mod, "LEAN_MODULES", [])), ok, "" if ok else out[-1500:]))
    bad = lean_source_audit()
    res.obligations.append(("no sorry/admit/axiom/native_decide in Lean sources", not bad, "; ".join(bad)))
    theorems = list(getattr(mod, "THEOREMS", []))
    if ok and theorems:
        for t, (tok, text) in axioms_audit(pid, mod.LEAN_MODULES, theorems).items():
            res.obligations.append((t, tok, text))
    elif theorems:
        for t in theorems:
            res.obligations.append((t, False, "not built"))
    if tier == "thorough" and ok:
        for m in getattr(mod, "LEAN_MODULES", []):
            p = subprocess.run(["lake", "env", "leanchecker", m], cwd=build.LEAN, stdout=subprocess.PIPE, stderr=subprocess.STDOUT, text=True)
            res.obligations.append(("leanchecker " + m, p.returncode == 0, p.stdout[-300:]))
    model_ok = os.path.exists(build.model_exe())

    # 3. scenarios
    if replay:
        scs = load_scn(replay)
    else:
        scs = corpus(pid) + mod.scenarios(tier, rng)
    extra = getattr(mod, "direct_checks", None)

    batch = 4000
    diffs_all = []
    skipped = 0
    for b in range(0, len(scs), batch):
        part = scs[b:b + batch]
        impl = scn.run_impl(part, harness)
        model = scn.run_model(part) if model_ok else {}
        for s in part:
            il, ist = impl.get(s.id, ([], "MISSING"))
            ml, mst = model.get(s.id, ([], "MISSING"))
            if ist == "SKIPPED":
                # not run: five scenarios of the same batch had hit the time limit before (each of them is a violation)
                skipped += 1
                continue
            res.evaluations += 1
            is_corpus = "corpus" in s.meta
            key = mod.nontrivial(s, il) if (ist == "ok" and not is_corpus) else None
            if key is not None:
                res.nontrivial.add(key)
            for hk in (["regression_corpus"] if is_corpus else mod.histogram(s, il)):
                res.hist[hk] = res.hist.get(hk, 0) + 1
            if len(res.samples) < 3 and key is not None:
                res.samples.append({"scenario": s.lines[:12], "impl_output": il[:12]})
            msg = None
            if ist != "ok":
                msg = "implementation side ended with %s (sanitizer report, crash or hang)" % ist
            elif "badclose" in il:
                msg = "the library closed a file descriptor that was not open (closed twice or never opened)"
            else:
                msg = corpus_oracle(s, il) if "corpus" in s.meta else None
                if msg is None and not is_corpus:
                    msg = mod.oracle(s, il)
            if msg:
                handle_violation(mod, res, harness, s, il, ist, ml, msg)
            elif not s.meta.get("impl_only") and (il != ml or mst != "ok"):
                diffs_all.append((s, il, ist, ml, mst))
    res.disagreements = len(diffs_all)
    if skipped:
        res.notes.append("%d scenarios were not run because five scenarios of their batch had run into the time limit before" % skipped)

    if extra and not replay:
        extra(res, harness, tier, rng)
    if leaf_fns and model_ok and harness.get("leaf") is not None:
        from checks import leaf
        if replay:
            leaf.replay(res, harness, replay)
        else:
            leaf.run(res, harness, tier, rng, leaf_fns)

    # 4. model/implementation disagreements that the oracle did not classify as violations,
    #    or broken proof obligations: extended search, then report without a failing input
    broken = [o for o in res.obligations if not o[1]]
    if (diffs_all or broken) and not res.violations and not replay:
        more = mod.scenarios("thorough" if tier == "quick" else tier, random.Random(seed + 7919))[:20000]
        impl = scn.run_impl(more, harness)
        for s in more:
            il, ist = impl.get(s.id, ([], "MISSING"))
            msg = ("implementation side ended with %s" % ist) if ist != "ok" else mod.oracle(s, il)
            if msg:
                handle_violation(mod, res, harness, s, il, ist, [], msg)
                if len(res.violations) >= 3:
                    break
    if not res.violations:
        if diffs_all:
            s, il, ist, ml, mst = diffs_all[0]
            fd = scn.first_diff(il, ml)
            p = write_replay(res, "corr", s, "correspondence broken: model (lean/Econf) and implementation disagree on %d of %d scenarios;\n"
                             "first differing line %s\nthe property oracle found no input on which the property itself fails" % (len(diffs_all), res.evaluations, fd), il, ml)
            res.violations.append((p, "model/implementation correspondence broken", True))
        elif broken:
            p = write_replay(res, "proof", None, "proof obligations no longer check:\n" + "\n".join("%s: %s" % (o[0], o[2]) for o in broken))
            res.violations.append((p, "proof obligation broken", True))
    return finish(mod, res)


def handle_violation(mod, res, harness, s, il, ist, ml, msg):
    # known finding?
    for k in load_known(res.pid):
        pred = getattr(mod, "KNOWN", {}).get(k["predicate"])
        if pred and pred(s, il, msg):
            line = "KNOWN-FINDING: property=%s %s" % (res.pid, k["what"])
            if line not in res.known:
                res.known.append(line)
            return
    if len(res.violations) >= 5:
        return

    def still_bad(t):
        r = scn.run_impl([t], harness, jobs=1)
        l2, st2 = r.get(t.id, ([], "MISSING"))
        if st2 != "ok":
            return ist != "ok"
        try:
            return ist == "ok" and bool(mod.oracle(t, l2))
        except Exception:
            return False
    small = s
    if getattr(mod, "SHRINK", True) and "corpus" not in s.meta:
        try:
            small = shrink(s, still_bad)
        except Exception:
            small = s
    r = scn.run_impl([small], harness, jobs=1)
    l2, st2 = r.get(small.id, (il, ist))
    p = write_replay(res, "v%d" % (len(res.violations) + 1), small, "property %s violated: %s\n(impl status %s)" % (res.pid, msg, st2), l2, None)
    res.violations.append((p, msg, False))


def finish(mod, res):
    for line in res.known:
        print(line)
    for p, note, noinput in res.violations:
        print("VIOLATION property=%s replay=%s%s" % (res.pid, p, " no-failing-input-found" if noinput else ""))
    n_ob = len(res.obligations)
    n_ok = sum(1 for o in res.obligations if o[1])
    ev = {
        "property_id": res.pid,
        "tier": res.tier,
        "seed": res.seed,
        "level": "proof",
        "coverage": {
            "obligations": max(n_ob, 1),
            "discharged": n_ok,
            "checker_cmd": "cd /verif/lean && lake build %s && lake env lean <#print axioms audit>" % " ".join(getattr(mod, "LEAN_MODULES", [])),
            "trusted_base": TRUSTED_BASE + list(getattr(mod, "TRUSTED", [])),
            "obligation_list": [{"name": o[0], "ok": o[1], "detail": o[2][:300]} for o in res.obligations],
            "evaluations": res.evaluations,
            "distinct_nontrivial": len(res.nontrivial) + res.direct_distinct,
            "rule": getattr(mod, "RULE", ""),
            "samples": res.samples or [{"note": "no scenario sample (proof obligations only)"}],
            "disagreements_checked": res.disagreements,
            "input_distribution": dict(sorted(res.hist.items())),
            "exhaustive": bool(getattr(mod, "EXHAUSTIVE", {}).get(res.tier, False)),
            "notes": res.notes,
            "known_findings_reported": res.known,
        },
        "assumptions": list(getattr(mod, "ASSUMPTIONS", [])),
        "wall_s": round(time.time() - res.t0, 2),
        "violations": len(res.violations),
    }
    os.makedirs(EVID, exist_ok=True)
    with open(os.path.join(EVID, res.pid + ".json"), "w") as f:
        json.dump(ev, f, indent=1)
    print("%s %s: %d scenarios, %d distinct non-trivial, obligations %d/%d, disagreements %d, violations %d, %.1fs" % (
        res.pid, res.tier, res.evaluations, len(res.nontrivial) + res.direct_distinct, n_ok, n_ob, res.disagreements, len(res.violations), time.time() - res.t0))
    return 1 if res.violations else 0


def main(argv):
    import argparse
    ap = argparse.ArgumentParser()
    ap.add_argument("prop")
    ap.add_argument("--tier", default=os.environ.get("VERIF_TIER", "quick"))
    ap.add_argument("--replay")
    a = ap.parse_args(argv)
    seed = int(os.environ.get("VERIF_SEED", "1"))
    mod = importlib.import_module("checks." + a.prop)
    return run_property(mod, a.tier, seed, a.replay)
