#!/bin/bash
# usage: seedtest.sh <seed-dir> <worktree> [checks...]
# 1. confirms in the scratch worktree: the patch applies, compiles, the test suite passes, the demonstration fails with it and passes without
# 2. applies the patch to /repo, runs the given checks (quick), reverts /repo
S=$1; W=$2; shift 2
set -u
cd $W && git checkout -q . && git apply --check $S/patch.diff || { echo "PATCH DOES NOT APPLY"; exit 2; }
build_demo() {
  if [ -f $S/demo.c ]; then gcc -g -w -fsanitize=address,undefined -I$W/include -I$W/lib $S/demo.c $W/lib/*.c -D_GNU_SOURCE -lm -lpthread -o /tmp/demo-$$ 2>/tmp/demo-$$.log || { echo "demo build failed"; tail -5 /tmp/demo-$$.log; return 1; }
    (cd $S && ASAN_OPTIONS=detect_leaks=0 timeout 600 /tmp/demo-$$ >/tmp/demo-$$.out 2>&1); echo $?
  else (cd $S && W=$W bash $S/demo.sh >/tmp/demo-$$.out 2>&1); echo $?; fi
}
[ -d $W/_build ] || (cd $W && cmake -G Ninja -B _build -S . >/dev/null)
echo "== without the change"; (cd $W && cmake --build _build --target check 2>&1 | grep -E "tests passed|tests failed" ); echo "demo exit: $(build_demo)"
git apply $S/patch.diff
echo "== with the change"; (cd $W && cmake --build _build --target check 2>&1 | grep -E "tests passed|tests failed|error:" ); echo "demo exit: $(build_demo)"; tail -3 /tmp/demo-$$.out
git checkout -q .
rm -f /tmp/demo-$$*
cd /repo && git apply $S/patch.diff || { echo "does not apply to /repo"; exit 2; }
for c in "$@"; do (cd /verif && timeout 1200 python3 check.py $c --tier ${TIER:-quick} | grep -E "VIOLATION|KNOWN|^C[0-9]+ " | cut -c1-220); done
git -C /repo checkout -q -- .
# the evidence files in the work tree are those of the unchanged tree again
git -C /verif checkout -q -- evidence 2>/dev/null
